//go:build go1.18 && verif

package sarama

// C07: consumer-group sessions follow the documented life-cycle and resume from commits.
// 1-3 members (each its own client + ConsumerGroup) on one simulated coordinator. DESIGN.md 5.7.

import (
	"context"
	"fmt"
	"sort"
	"strings"
	"sync"
	"sync/atomic"
	"testing"
	"time"

	"github.com/Shopify/sarama/internal/vfcore"
	"github.com/rcrowley/go-metrics"
	"pgregory.net/rapid"
)

type vfGrpSession struct {
	Behavior string `json:"behavior"` // returnAfter | block | setupError
	K        int    `json:"k,omitempty"`     // returnAfter: messages per claim before ConsumeClaim returns
	MarkN    int    `json:"markN,omitempty"` // mark the first MarkN delivered messages of each claim (-1 = all)
}

type vfGrpMember struct {
	Topics   []int          `json:"topics"`
	Sessions []vfGrpSession `json:"sessions"`
}

type vfGrpStep struct {
	Op string `json:"op"` // start | cancel | close | fence | append | sleep | waitClaims | waitIdle
	M  int    `json:"m,omitempty"`
	T  int    `json:"t,omitempty"`
	P  int    `json:"p,omitempty"`
	N  int    `json:"n,omitempty"`
}

type vfGrpCase struct {
	Strategy  string               `json:"strategy"`
	Topics    [][]int              `json:"topics"` // topic -> per-partition initial log length
	Committed map[string]int64     `json:"committed,omitempty"`
	Members   []vfGrpMember        `json:"members"`
	Script    []vfGrpStep          `json:"script"`
	Faults    map[string][]vfFault `json:"faults,omitempty"`
	Delays    map[string][]int     `json:"delays,omitempty"`
	C12       *vfC12Ctl            `json:"c12,omitempty"`
	Retention bool                 `json:"retention,omitempty"` // Consumer.Offsets.Retention set: commits go out as OffsetCommit v2
	RetryMax  *int                 `json:"retryMax,omitempty"`  // Consumer.Group.Rebalance.Retry.Max (nil = 4)
	OffRetry  *int                 `json:"offRetry,omitempty"`  // Consumer.Offsets.Retry.Max (nil = the default 3); 0 = the final commit gets one attempt
	SlowTick  bool                 `json:"slowTick,omitempty"`  // auto-commit interval of an hour: only the final commit of a session commits
}

type vfGrpEvent struct {
	Seq     int64   `json:"seq"`
	Kind    string  `json:"kind"` // consume-call | consume-return | setup | claim-start | msg | claim-end | cleanup
	M       int     `json:"m"`
	Call    int     `json:"call"`
	Gen     int32   `json:"gen,omitempty"`
	Member  string  `json:"member,omitempty"`
	TP      string  `json:"tp,omitempty"`
	Off     int64   `json:"off,omitempty"`
	Claims  string  `json:"claims,omitempty"`
	Err     string  `json:"err,omitempty"`
	Marked  bool    `json:"marked,omitempty"`
}

type vfGrpRun struct {
	c      *vfGrpCase
	sim    *vfSim
	gl     *vfGroupLayer
	mu     sync.Mutex
	events []vfGrpEvent
	groups []ConsumerGroup
	cancel []context.CancelFunc
	active []int32 // per member: 1 while a Consume call is running
	claimsStarted []int32
	claimsWanted  []int32
	errs   []string
	panics []string
	hang   string
	stacks string
	closed []int32
	stop   *vfStopper
	eventsEnd int64
	closedEarly bool
	secondClose string
}

func (run *vfGrpRun) ev(e vfGrpEvent) int64 {
	e.Seq = run.sim.ev(vfEvent{Kind: "app-" + e.Kind, Key: e.TP, N: e.M, Base: e.Off}, true)
	run.mu.Lock()
	run.events = append(run.events, e)
	run.mu.Unlock()
	return e.Seq
}

type vfGrpHandler struct {
	run  *vfGrpRun
	m    int
	call int
	plan vfGrpSession
}

func (h *vfGrpHandler) Setup(s ConsumerGroupSession) error {
	var cl []string
	n := 0
	for t, ps := range s.Claims() {
		cl = append(cl, fmt.Sprintf("%s%v", t, ps))
		n += len(ps)
	}
	sort.Strings(cl)
	atomic.StoreInt32(&h.run.claimsWanted[h.m], int32(n))
	atomic.StoreInt32(&h.run.claimsStarted[h.m], 0)
	h.run.ev(vfGrpEvent{Kind: "setup", M: h.m, Call: h.call, Gen: s.GenerationID(), Member: s.MemberID(), Claims: strings.Join(cl, " ")})
	if h.plan.Behavior == "setupError" {
		return fmt.Errorf("vf: scripted Setup error")
	}
	return nil
}

func (h *vfGrpHandler) Cleanup(s ConsumerGroupSession) error {
	h.run.ev(vfGrpEvent{Kind: "cleanup", M: h.m, Call: h.call, Gen: s.GenerationID(), Member: s.MemberID()})
	return nil
}

func (h *vfGrpHandler) ConsumeClaim(s ConsumerGroupSession, cl ConsumerGroupClaim) error {
	tp := fmt.Sprintf("%s/%d", cl.Topic(), cl.Partition())
	h.run.ev(vfGrpEvent{Kind: "claim-start", M: h.m, Call: h.call, Gen: s.GenerationID(), TP: tp, Off: cl.InitialOffset()})
	atomic.AddInt32(&h.run.claimsStarted[h.m], 1)
	n := 0
	defer func() {
		h.run.ev(vfGrpEvent{Kind: "claim-end", M: h.m, Call: h.call, Gen: s.GenerationID(), TP: tp})
	}()
	for msg := range cl.Messages() {
		marked := h.plan.MarkN < 0 || n < h.plan.MarkN
		h.run.ev(vfGrpEvent{Kind: "msg", M: h.m, Call: h.call, Gen: s.GenerationID(), TP: tp, Off: msg.Offset, Marked: marked})
		if marked {
			s.MarkMessage(msg, "")
		}
		n++
		if h.plan.Behavior == "returnAfter" && n >= h.plan.K {
			return nil
		}
	}
	return nil
}

func vfGenGrpCase(t *rapid.T) *vfGrpCase {
	c := &vfGrpCase{Strategy: rapid.SampledFrom([]string{"range", "roundrobin", "sticky"}).Draw(t, "strategy")}
	c.Retention = rapid.IntRange(0, 2).Draw(t, "retention") == 0
	if rm := rapid.SampledFrom([]int{4, 4, 4, 1, 0, 0}).Draw(t, "rebalanceRetryMax"); rm != 4 {
		c.RetryMax = &rm
	}
	if om := rapid.SampledFrom([]int{3, 3, 0, 1}).Draw(t, "offsetsRetryMax"); om != 3 {
		c.OffRetry = &om
	}
	c.SlowTick = rapid.IntRange(0, 3).Draw(t, "slowTicker") == 0
	nT := rapid.IntRange(1, 2).Draw(t, "nTopics")
	for ti := 0; ti < nT; ti++ {
		nP := rapid.IntRange(1, 4).Draw(t, fmt.Sprintf("t%d.parts", ti))
		var lens []int
		for p := 0; p < nP; p++ {
			lens = append(lens, rapid.IntRange(0, 8).Draw(t, fmt.Sprintf("t%d.p%d.len", ti, p)))
		}
		c.Topics = append(c.Topics, lens)
	}
	c.Committed = map[string]int64{}
	for ti, lens := range c.Topics {
		for p, l := range lens {
			switch rapid.IntRange(0, 5).Draw(t, fmt.Sprintf("commit.%d.%d", ti, p)) {
			case 0:
				c.Committed[fmt.Sprintf("t%d/%d", ti, p)] = int64(rapid.IntRange(0, l).Draw(t, fmt.Sprintf("commitOff.%d.%d", ti, p)))
			case 1:
				c.Committed[fmt.Sprintf("t%d/%d", ti, p)] = int64(l + 50) // out of range
			}
		}
	}
	nM := rapid.IntRange(1, 3).Draw(t, "nMembers")
	for m := 0; m < nM; m++ {
		mem := vfGrpMember{}
		for ti := 0; ti < nT; ti++ {
			if ti == 0 || rapid.Bool().Draw(t, fmt.Sprintf("m%d.sub%d", m, ti)) {
				mem.Topics = append(mem.Topics, ti)
			}
		}
		nS := rapid.IntRange(1, 3).Draw(t, fmt.Sprintf("m%d.nSessions", m))
		for s := 0; s < nS; s++ {
			sp := vfGrpSession{Behavior: rapid.SampledFrom([]string{"block", "block", "returnAfter", "returnAfter", "setupError"}).Draw(t, fmt.Sprintf("m%d.s%d.beh", m, s))}
			sp.K = rapid.IntRange(1, 4).Draw(t, fmt.Sprintf("m%d.s%d.k", m, s))
			sp.MarkN = rapid.SampledFrom([]int{-1, -1, 0, 1, 3}).Draw(t, fmt.Sprintf("m%d.s%d.mark", m, s))
			mem.Sessions = append(mem.Sessions, sp)
		}
		c.Members = append(c.Members, mem)
	}
	// script: members start (possibly staggered), things happen, everybody closes
	order := rapid.Permutation(func() []int {
		o := make([]int, nM)
		for i := range o {
			o[i] = i
		}
		return o
	}()).Draw(t, "startOrder")
	started := map[int]bool{}
	for i, m := range order {
		c.Script = append(c.Script, vfGrpStep{Op: "start", M: m})
		started[m] = true
		if i == 0 || rapid.Bool().Draw(t, fmt.Sprintf("settle%d", i)) {
			c.Script = append(c.Script, vfGrpStep{Op: "waitClaims", M: m})
		}
	}
	nSteps := rapid.IntRange(0, 6).Draw(t, "nSteps")
	for i := 0; i < nSteps; i++ {
		l := fmt.Sprintf("st%d", i)
		m := rapid.IntRange(0, nM-1).Draw(t, l+".m")
		switch rapid.SampledFrom([]string{"cancel", "cancel", "fence", "append", "append", "sleep", "waitClaims", "waitIdle"}).Draw(t, l+".op") {
		case "cancel":
			c.Script = append(c.Script, vfGrpStep{Op: "cancel", M: m})
		case "fence":
			c.Script = append(c.Script, vfGrpStep{Op: "fence", M: m})
		case "append":
			ti := rapid.IntRange(0, nT-1).Draw(t, l+".t")
			c.Script = append(c.Script, vfGrpStep{Op: "append", T: ti, P: rapid.IntRange(0, len(c.Topics[ti])-1).Draw(t, l+".p"), N: rapid.IntRange(1, 4).Draw(t, l+".n")})
		case "sleep":
			c.Script = append(c.Script, vfGrpStep{Op: "sleep", N: rapid.SampledFrom([]int{500, 3000, 10000}).Draw(t, l+".us")})
		case "waitClaims":
			c.Script = append(c.Script, vfGrpStep{Op: "waitClaims", M: m})
		case "waitIdle":
			c.Script = append(c.Script, vfGrpStep{Op: "waitIdle"})
		}
	}
	closeOrder := rapid.Permutation(order).Draw(t, "closeOrder")
	for _, m := range closeOrder {
		c.Script = append(c.Script, vfGrpStep{Op: "close", M: m})
	}
	// coordinator faults by occurrence
	c.Faults = map[string][]vfFault{}
	nF := rapid.IntRange(0, 4).Draw(t, "nFaults")
	for i := 0; i < nF; i++ {
		l := fmt.Sprintf("f%d", i)
		key := rapid.SampledFrom([]string{"join", "sync", "heartbeat", "heartbeat", "offsetCommit", "leave", "offsetFetch", "findCoordinator"}).Draw(t, l+".key")
		var f vfFault
		switch key {
		case "join", "sync":
			f = rapid.SampledFrom([]vfFault{{Kind: "err", Code: 27}, {Kind: "err", Code: 25}, {Kind: "err", Code: 22}, {Kind: "err", Code: 16}, {Kind: "dropBefore"}}).Draw(t, l+".f")
		case "heartbeat":
			f = rapid.SampledFrom([]vfFault{{Kind: "err", Code: 27}, {Kind: "err", Code: 25}, {Kind: "err", Code: 22}, {Kind: "err", Code: 16}, {Kind: "dropBefore"}}).Draw(t, l+".f")
		case "offsetCommit":
			f = rapid.SampledFrom([]vfFault{{Kind: "err", Code: 27}, {Kind: "err", Code: 22}, {Kind: "err", Code: 16}, {Kind: "dropBefore"}, {Kind: "dropAfter"}}).Draw(t, l+".f")
		case "leave":
			f = rapid.SampledFrom([]vfFault{{Kind: "err", Code: 25}, {Kind: "err", Code: 16}, {Kind: "dropBefore"}}).Draw(t, l+".f")
		case "offsetFetch":
			f = rapid.SampledFrom([]vfFault{{Kind: "err", Code: 14}, {Kind: "err", Code: 16}, {Kind: "dropBefore"}}).Draw(t, l+".f")
		default:
			f = rapid.SampledFrom([]vfFault{{Kind: "err", Code: 15}, {Kind: "dropBefore"}}).Draw(t, l+".f")
		}
		pad := rapid.IntRange(0, 4).Draw(t, l+".pad")
		lst := c.Faults[key]
		for j := 0; j < pad; j++ {
			lst = append(lst, vfFault{Kind: "ok"})
		}
		c.Faults[key] = append(lst, f)
	}
	if rapid.IntRange(0, 2).Draw(t, "perturb") != 0 {
		c.Delays = map[string][]int{}
		for _, pnt := range []string{"group.release", "offs.flush.built", "cons.feeder.handoff"} {
			v := make([]int, 8)
			for i := range v {
				v[i] = rapid.SampledFrom([]int{0, 0, 0, 1, 2, 3}).Draw(t, fmt.Sprintf("d.%s.%d", pnt, i))
			}
			c.Delays[pnt] = v
		}
	}
	return c
}

func vfGrpStrategy(name string) BalanceStrategy {
	switch name {
	case "roundrobin":
		return BalanceStrategyRoundRobin
	case "sticky":
		return BalanceStrategySticky
	}
	return BalanceStrategyRange
}

func (c *vfGrpCase) config(run *vfGrpRun, m int) *Config {
	conf := NewConfig()
	conf.Version = V1_0_0_0
	conf.ClientID = fmt.Sprintf("c%d", m)
	conf.MetricRegistry = metrics.NewRegistry()
	conf.Net.Proxy.Enable = true
	conf.Net.Proxy.Dialer = run.sim.net
	conf.Net.ReadTimeout = time.Second
	if c.C12 != nil && c.C12.UnreachKind == "silent" {
		conf.Net.ReadTimeout = 150 * time.Millisecond
	}
	conf.Metadata.Retry.Max = 2
	conf.Metadata.Retry.Backoff = time.Millisecond
	conf.Metadata.RefreshFrequency = 40 * time.Millisecond
	conf.ChannelBufferSize = 4
	conf.Consumer.Return.Errors = true
	conf.Consumer.Fetch.Default = 1024
	conf.Consumer.MaxWaitTime = 2 * time.Millisecond
	conf.Consumer.Retry.Backoff = time.Millisecond
	conf.Consumer.Offsets.Initial = OffsetOldest
	conf.Consumer.Offsets.AutoCommit.Enable = true
	conf.Consumer.Offsets.AutoCommit.Interval = 2 * time.Millisecond
	if c.Retention {
		conf.Consumer.Offsets.Retention = 90 * time.Second
	}
	if c.OffRetry != nil {
		conf.Consumer.Offsets.Retry.Max = *c.OffRetry
	}
	if c.SlowTick {
		conf.Consumer.Offsets.AutoCommit.Interval = time.Hour
	}
	conf.Consumer.Group.Session.Timeout = 200 * time.Millisecond
	conf.Consumer.Group.Heartbeat.Interval = 3 * time.Millisecond
	conf.Consumer.Group.Rebalance.Timeout = 200 * time.Millisecond
	conf.Consumer.Group.Rebalance.Retry.Max = 4
	if c.RetryMax != nil {
		conf.Consumer.Group.Rebalance.Retry.Max = *c.RetryMax
	}
	conf.Consumer.Group.Rebalance.Retry.Backoff = 2 * time.Millisecond
	conf.Consumer.Group.Rebalance.Strategy = vfGrpStrategy(c.Strategy)
	return conf
}

// appendPlain appends n single-record v2 batches to a partition's consumer-side log.
func (run *vfGrpRun) appendPlain(ti, p, n int) {
	key := fmt.Sprintf("t%d/%d", ti, p)
	run.sim.mu.Lock()
	m := run.sim.logs[key]
	run.sim.mu.Unlock()
	for i := 0; i < n; i++ {
		off := m.hwm()
		rec := vfsRecord{Offset: off, Value: []byte(fmt.Sprintf("%s@%d", key, off)), TsMs: vfcTsBase + off}
		b, _ := vfsWriteBatch(off, 0, 0, -1000, rec.TsMs, -1, 0, 0, false, false, false, []vfsRecord{rec}, 0)
		run.sim.mu.Lock()
		m.Units = append(m.Units, vfsStoredUnit{First: off, Last: off, Bytes: b, Magic: 2})
		m.revealed = len(m.Units)
		run.sim.mu.Unlock()
	}
	run.sim.ev(vfEvent{Kind: "append", Key: key, N: n}, true)
}

func vfExecGrp(c *vfGrpCase) *vfGrpRun {
	run := &vfGrpRun{c: c}
	sim := newVfSim(1)
	run.sim = sim
	run.gl = sim.enableGroups()
	for ti, lens := range c.Topics {
		leaders := make([]int32, len(lens))
		for i := range leaders {
			leaders[i] = 1
		}
		sim.addTopic(fmt.Sprintf("t%d", ti), leaders)
		for p, l := range lens {
			sim.setLog(fmt.Sprintf("t%d", ti), int32(p), &vfsLogModel{})
			run.appendPlain(ti, p, l)
		}
	}
	for tp, off := range c.Committed {
		var ti, p int
		fmt.Sscanf(tp, "t%d/%d", &ti, &p)
		run.gl.setOffset("g", fmt.Sprintf("t%d", ti), int32(p), off, "")
	}
	sim.setFaults(c.Faults)
	restore := vfInstallHooks(c.Delays, sim)
	oldPH := PanicHandler
	PanicHandler = func(v interface{}) {
		run.mu.Lock()
		run.panics = append(run.panics, fmt.Sprintf("%v\n%s", v, vfShortStack()))
		run.mu.Unlock()
	}
	defer func() { PanicHandler = oldPH; restore(); sim.shutdown() }()

	run.stop = newVfStopper(c.C12, sim)
	defer run.stop.finish()
	nM := len(c.Members)
	run.groups = make([]ConsumerGroup, nM)
	run.cancel = make([]context.CancelFunc, nM)
	run.active = make([]int32, nM)
	run.claimsStarted = make([]int32, nM)
	run.claimsWanted = make([]int32, nM)
	run.closed = make([]int32, nM)
	var wg sync.WaitGroup
	var cmu sync.Mutex

	startMember := func(m int) {
		g, err := NewConsumerGroup(sim.seedAddrs(), "g", c.config(run, m))
		if err != nil {
			run.mu.Lock()
			run.errs = append(run.errs, fmt.Sprintf("member %d: NewConsumerGroup: %v", m, err))
			run.mu.Unlock()
			return
		}
		run.groups[m] = g
		wg.Add(2)
		go func() {
			defer wg.Done()
			for e := range g.Errors() {
				run.mu.Lock()
				run.errs = append(run.errs, fmt.Sprintf("member %d: %v", m, e))
				run.mu.Unlock()
			}
		}()
		go func() {
			defer wg.Done()
			var topics []string
			for _, ti := range c.Members[m].Topics {
				topics = append(topics, fmt.Sprintf("t%d", ti))
			}
			for call, plan := range c.Members[m].Sessions {
				if atomic.LoadInt32(&run.closed[m]) == 1 {
					return
				}
				ctx, cancel := context.WithCancel(context.Background())
				cmu.Lock()
				run.cancel[m] = cancel
				cmu.Unlock()
				atomic.StoreInt32(&run.claimsWanted[m], -1)
				atomic.StoreInt32(&run.active[m], 1)
				run.ev(vfGrpEvent{Kind: "consume-call", M: m, Call: call})
				err := g.Consume(ctx, topics, &vfGrpHandler{run: run, m: m, call: call, plan: plan})
				e := vfGrpEvent{Kind: "consume-return", M: m, Call: call}
				if err != nil {
					e.Err = err.Error()
				}
				run.ev(e)
				atomic.StoreInt32(&run.active[m], 0)
				cancel()
				if err == ErrClosedConsumerGroup {
					return
				}
			}
		}()
	}
	closing := false
	idle := func(cond func() bool, max time.Duration) bool {
		t0 := time.Now()
		for !cond() {
			if time.Since(t0) > max || (!closing && run.stop.stopped()) {
				return false
			}
			time.Sleep(200 * time.Microsecond)
		}
		return true
	}
	for _, st := range c.Script {
		if run.stop.stopped() && st.Op != "close" {
			continue // the script is cut short: only the closes remain
		}
		if st.Op == "close" && !closing {
			closing = true
			run.eventsEnd = vfEventCount(sim)
			run.closedEarly = run.stop.stopped()
		}
		switch st.Op {
		case "start":
			startMember(st.M)
		case "cancel":
			cmu.Lock()
			if cf := run.cancel[st.M]; cf != nil {
				cf()
			}
			cmu.Unlock()
			sim.ev(vfEvent{Kind: "script-cancel", N: st.M}, true)
		case "fence":
			run.gl.fence("g", fmt.Sprintf("c%d", st.M))
		case "append":
			run.appendPlain(st.T, st.P, st.N)
		case "sleep":
			time.Sleep(time.Duration(st.N) * time.Microsecond)
		case "waitClaims":
			m := st.M
			idle(func() bool {
				w := atomic.LoadInt32(&run.claimsWanted[m])
				return w >= 0 && atomic.LoadInt32(&run.claimsStarted[m]) >= w
			}, 400*time.Millisecond)
		case "waitIdle":
			last, lastChange := sim.hist.progress(), time.Now()
			idle(func() bool {
				if p := sim.hist.progress(); p != last {
					last, lastChange = p, time.Now()
				}
				return time.Since(lastChange) > 15*time.Millisecond
			}, 300*time.Millisecond)
		case "close":
			g := run.groups[st.M]
			if g == nil {
				continue
			}
			atomic.StoreInt32(&run.closed[st.M], 1)
			done := int32(0)
			go func() { _ = g.Close(); atomic.StoreInt32(&done, 1) }()
			if !vfWaitQuiescent(sim, func() bool { return atomic.LoadInt32(&done) == 1 }) {
				run.hang = fmt.Sprintf("Close of member %d did not return", st.M)
				run.stacks = vfcore.Stacks()
				return run
			}
			sim.ev(vfEvent{Kind: "script-closed", N: st.M}, true)
			if c.C12 != nil && c.C12.DoubleClose {
				func() {
					defer func() {
						if v := recover(); v != nil {
							run.secondClose = fmt.Sprintf("second Close of member %d panicked: %v", st.M, v)
						}
					}()
					d2 := int32(0)
					go func() { _ = g.Close(); atomic.StoreInt32(&d2, 1) }()
					if !vfWaitQuiescent(sim, func() bool { return atomic.LoadInt32(&d2) == 1 }) {
						run.secondClose = fmt.Sprintf("second Close of member %d did not return", st.M)
					}
				}()
			}
		}
	}
	fin := int32(0)
	go func() { wg.Wait(); atomic.StoreInt32(&fin, 1) }()
	if !vfWaitQuiescent(sim, func() bool { return atomic.LoadInt32(&fin) == 1 }) {
		run.hang = "a Consume call or the Errors() channel did not end after every group was closed"
		run.stacks = vfcore.Stacks()
	}
	return run
}

func (run *vfGrpRun) fail(symptom, format string, a ...interface{}) *vfcore.Failure {
	f := vfcore.Failf(symptom, format, a...)
	ev := run.sim.hist.snapshot()
	var keep []vfEvent
	for _, e := range ev {
		if e.Kind == "fetch-part" || e.Kind == "accept" || e.Kind == "conn-closed" || e.Kind == "metadata-req" || e.Kind == "metadata-served" || (e.Kind == "heartbeat" && e.Code == 0) {
			continue
		}
		keep = append(keep, e)
	}
	if len(keep) > 400 {
		keep = keep[len(keep)-400:]
	}
	run.mu.Lock()
	h := map[string]interface{}{"app": append([]vfGrpEvent(nil), run.events...), "sim": keep, "errors": append([]string(nil), run.errs...), "commits": run.gl.commitsOf("g"), "panics": run.panics}
	run.mu.Unlock()
	if run.stacks != "" {
		s := run.stacks
		if len(s) > 25000 {
			s = s[:25000]
		}
		h["goroutines"] = s
	}
	f.History = h
	return f
}

func vfOracleGrp(run *vfGrpRun, r *vfcore.Rec) *vfcore.Failure {
	c := run.c
	if len(run.panics) > 0 {
		return run.fail("panic-in-pipeline", "PanicHandler caught: %v", run.panics[0])
	}
	if run.hang != "" {
		return run.fail("hang", "%s", run.hang)
	}
	run.mu.Lock()
	events := append([]vfGrpEvent(nil), run.events...)
	run.mu.Unlock()
	simEv := run.sim.hist.snapshot()
	commits := run.gl.commitsOf("g")
	type callKey struct{ m, call int }
	byCall := map[callKey][]vfGrpEvent{}
	var order []callKey
	for _, e := range events {
		k := callKey{e.M, e.Call}
		if _, ok := byCall[k]; !ok {
			order = append(order, k)
		}
		byCall[k] = append(byCall[k], e)
	}
	// offsets served to a client by OffsetFetch, in order: used for "claim starts at the committed offset"
	delivered := map[string]map[int64]bool{}
	sessions, multiMember, disturbed := 0, len(c.Members) >= 2, false
	for _, k := range order {
		evs := byCall[k]
		var setup, cleanup *vfGrpEvent
		nSetup, nCleanup := 0, 0
		claimStart := map[string]vfGrpEvent{}
		claimEnd := map[string]int64{}
		var ret *vfGrpEvent
		lastMark := map[string]int64{}
		msgs := map[string][]int64{}
		for i := range evs {
			e := evs[i]
			switch e.Kind {
			case "setup":
				nSetup++
				setup = &evs[i]
			case "cleanup":
				nCleanup++
				cleanup = &evs[i]
			case "claim-start":
				if _, dup := claimStart[e.TP]; dup {
					return run.fail("claim-twice", "member %d call %d: ConsumeClaim ran twice for %s in one session", k.m, k.call, e.TP)
				}
				claimStart[e.TP] = e
			case "claim-end":
				claimEnd[e.TP] = e.Seq
			case "msg":
				msgs[e.TP] = append(msgs[e.TP], e.Off)
				if e.Marked {
					lastMark[e.TP] = e.Off + 1
				}
			case "consume-return":
				ret = &evs[i]
			}
		}
		if nSetup > 1 || nCleanup > 1 {
			return run.fail("setup-cleanup-count", "member %d call %d: Setup ran %d times, Cleanup %d times", k.m, k.call, nSetup, nCleanup)
		}
		if setup == nil {
			if len(claimStart) > 0 || cleanup != nil {
				return run.fail("claim-without-setup", "member %d call %d: ConsumeClaim/Cleanup ran although Setup never did", k.m, k.call)
			}
			continue
		}
		sessions++
		plan := c.Members[k.m].Sessions[k.call]
		// claims as granted
		granted := map[string]bool{}
		for _, part := range strings.Fields(setup.Claims) {
			// "t0[0 1]" tokens may be split by the space inside the brackets; re-join below
			_ = part
		}
		for _, tok := range vfGrpParseClaims(setup.Claims) {
			granted[tok] = true
		}
		for tp, cs := range claimStart {
			if !granted[tp] {
				return run.fail("claim-not-assigned", "member %d call %d: ConsumeClaim for %s which is not among the session's claims %q", k.m, k.call, tp, setup.Claims)
			}
			if cs.Seq < setup.Seq {
				return run.fail("claim-before-setup", "member %d call %d: ConsumeClaim(%s) started before Setup", k.m, k.call, tp)
			}
		}
		if plan.Behavior == "setupError" {
			if len(claimStart) > 0 {
				return run.fail("claim-after-setup-error", "member %d call %d: claims started although Setup returned an error", k.m, k.call)
			}
		}
		if cleanup == nil {
			if ret != nil {
				return run.fail("no-cleanup", "member %d call %d: Consume returned (%q) after Setup without Cleanup", k.m, k.call, ret.Err)
			}
			continue // the run was cut short (hang is judged elsewhere)
		}
		for tp, cs := range claimStart {
			end, ok := claimEnd[tp]
			if !ok || end > cleanup.Seq {
				return run.fail("cleanup-before-claim-end", "member %d call %d: Cleanup ran while ConsumeClaim(%s) (started at seq %d) had not returned", k.m, k.call, tp, cs.Seq)
			}
		}
		if ret != nil && ret.Seq < cleanup.Seq {
			return run.fail("return-before-cleanup", "member %d call %d: Consume returned before Cleanup", k.m, k.call)
		}
		// claim start = committed offset the coordinator had when the session's OffsetFetch was answered
		for tp, cs := range claimStart {
			var ti, p int
			fmt.Sscanf(tp, "t%d/%d", &ti, &p)
			want, known := vfGrpCommittedAt(commits, c, tp, setup.Seq, cs.Seq)
			logEnd := vfGrpLogEndAt(simEv, c, tp, cs.Seq)
			if known {
				ok := false
				for _, w := range want {
					exp := w
					if w < 0 || w > logEnd.max {
						exp = OffsetOldest
					}
					if w > logEnd.min && w <= logEnd.max {
						// in range or not depending on an append racing with the claim start: both answers are right
						if cs.Off == w || cs.Off == OffsetOldest {
							ok = true
						}
					}
					if cs.Off == exp {
						ok = true
					}
				}
				if !ok {
					return run.fail("claim-start-offset", "member %d call %d: ConsumeClaim(%s) InitialOffset=%d; the coordinator's committed offset for it was one of %v (log end %d..%d; none/out of range => configured initial %d)", k.m, k.call, tp, cs.Off, want, logEnd.min, logEnd.max, OffsetOldest)
				}
			}
			// delivered offsets: start at the initial position and are gap-free
			first := cs.Off
			if first == OffsetOldest {
				first = 0
			}
			for i, off := range msgs[tp] {
				if off != first+int64(i) {
					return run.fail("claim-gap", "member %d call %d: %s delivered offset %d as message #%d of a claim that starts at %d", k.m, k.call, tp, off, i, first)
				}
				if delivered[tp] == nil {
					delivered[tp] = map[int64]bool{}
				}
				delivered[tp][off] = true
			}
		}
		// final commit of the session's marks after Cleanup, before Consume returns (auto-commit on)
		if ret != nil {
			for tp, mark := range lastMark {
				// MarkOffset only ever raises the pending position: a mark at or below what the session started from
				// (e.g. an out-of-range committed offset above the log end) changes nothing and needs no commit
				if startVals, _ := vfGrpCommittedAt(commits, c, tp, setup.Seq, setup.Seq); len(startVals) > 0 {
					below := false
					for _, sv := range startVals {
						if mark <= sv {
							below = true
						}
					}
					if below {
						continue
					}
				}
				var last *vfgCommit
				for i := range commits {
					cm := &commits[i]
					if cm.Client == fmt.Sprintf("c%d", k.m) && cm.Gen == setup.Gen && cm.TP == tp {
						last = cm
					}
				}
				if last == nil {
					if vfGrpCommitFaulted(simEv, k.m, setup.Seq, ret.Seq) {
						continue
					}
					return run.fail("marks-not-committed", "member %d call %d (generation %d): %s was marked up to %d but no commit request for it reached the coordinator before Consume returned", k.m, k.call, setup.Gen, tp, mark)
				}
				if last.Offset != mark && !vfGrpCommitFaulted(simEv, k.m, setup.Seq, ret.Seq) {
					return run.fail("final-commit-stale", "member %d call %d (generation %d): last commit for %s carried %d, the session's last mark was %d", k.m, k.call, setup.Gen, tp, last.Offset, mark)
				}
				if last.Seq > ret.Seq {
					return run.fail("return-before-final-commit", "member %d call %d: Consume returned (seq %d) before the final commit for %s arrived (seq %d)", k.m, k.call, ret.Seq, tp, last.Seq)
				}
			}
		}
	}
	// identity: after a join answered UnknownMemberId / IllegalGeneration the next join of that client has an empty member id
	lastJoinCode := map[string]int16{}
	for _, e := range simEv {
		switch e.Kind {
		case "join-resp":
			cl := strings.Fields(e.Note)
			if len(cl) > 0 {
				lastJoinCode[cl[0]] = e.Code
			}
		case "join-arrived":
			cl := strings.Fields(e.Note)
			if len(cl) == 2 {
				if code := lastJoinCode[cl[0]]; (code == 25 || code == 22) && cl[1] != "member=" {
					return run.fail("stale-identity", "client %s rejoined with %s after its previous join was answered with error %d (must rejoin with an empty member id)", cl[0], cl[1], code)
				}
			}
		case "rebalance-start", "member-fenced", "script-cancel":
			disturbed = true
		case "plan":
			if f := vfGrpCheckPlan(run, e); f != nil {
				return f
			}
		case "identity-mismatch":
			return run.fail("request-identity", "%s", e.Note)
		case "client-wire-violation", "sync-stranger":
			return run.fail("group-protocol-violation", "%s: %s", e.Kind, e.Note)
		}
	}
	// no skipped record across sessions: below the highest delivered offset everything from the first start on was delivered
	for tp, set := range delivered {
		var max int64 = -1
		min := int64(1 << 60)
		for off := range set {
			if off > max {
				max = off
			}
			if off < min {
				min = off
			}
		}
		for off := min; off <= max; off++ {
			if !set[off] {
				return run.fail("record-skipped", "%s: offsets %d..%d were delivered over the sessions but %d never was", tp, min, max, off)
			}
		}
	}
	r.Class("strategy=" + c.Strategy)
	r.Classf("retention=%v", c.Retention)
	if c.RetryMax != nil {
		r.Classf("rebalanceRetryMax=%d", *c.RetryMax)
	}
	if c.OffRetry != nil {
		r.Classf("offsetsRetryMax=%d", *c.OffRetry)
	}
	r.Classf("slowTicker=%v", c.SlowTick)
	r.Classf("members=%d", len(c.Members))
	r.Classf("sessions=%d", sessions)
	if disturbed {
		r.Class("disturbed")
	}
	if (sessions >= 2 || multiMember) && disturbed {
		r.NonTrivial("")
	}
	return nil
}

func vfGrpParseClaims(s string) []string {
	// "t0[0 1] t1[2]" -> t0/0 t0/1 t1/2
	var out []string
	for len(s) > 0 {
		i := strings.Index(s, "[")
		j := strings.Index(s, "]")
		if i < 0 || j < i {
			break
		}
		topic := strings.TrimSpace(s[:i])
		for _, p := range strings.Fields(s[i+1 : j]) {
			out = append(out, topic+"/"+p)
		}
		s = s[j+1:]
	}
	return out
}

// vfGrpCommittedAt: the offsets the coordinator may have answered for tp to an OffsetFetch between the session's
// join (approximated by its Setup, which follows the fetch) and the claim start: every value the store held in the
// window that ends at the claim start and begins at the last change before Setup.
func vfGrpCommittedAt(commits []vfgCommit, c *vfGrpCase, tp string, setupSeq, claimSeq int64) ([]int64, bool) {
	cur := int64(-1)
	if v, ok := c.Committed[tp]; ok {
		cur = v
	}
	var cands []int64
	for _, cm := range commits {
		if cm.TP != tp || !cm.Applied {
			continue
		}
		if cm.Seq > claimSeq {
			break
		}
		if cm.Seq > setupSeq-400 { // the fetch happened shortly before Setup; keep every value around it
			cands = append(cands, cur)
		}
		cur = cm.Offset
	}
	cands = append(cands, cur)
	return cands, true
}

type vfGrpRange struct{ min, max int64 }

func vfGrpLogEndAt(simEv []vfEvent, c *vfGrpCase, tp string, seq int64) vfGrpRange {
	var ti, p int
	fmt.Sscanf(tp, "t%d/%d", &ti, &p)
	n := int64(0)
	r := vfGrpRange{}
	for _, e := range simEv {
		if e.Kind == "append" && e.Key == tp {
			if e.Seq <= seq-50 {
				r.min = n + int64(e.N)
			}
			n += int64(e.N)
		}
	}
	r.max = n
	if r.min > r.max {
		r.min = r.max
	}
	return r
}

func vfGrpCommitFaulted(simEv []vfEvent, m int, from, to int64) bool {
	// a scripted or legitimate refusal/connection loss of a commit or coordinator lookup of this member during the session
	cl := fmt.Sprintf("c%d", m)
	for _, e := range simEv {
		if e.Seq < from || e.Seq > to+50 {
			continue
		}
		switch e.Kind {
		case "offset-commit":
			if e.Code != 0 {
				return true
			}
		case "offset-commit-arrived", "find-coordinator":
			if strings.HasPrefix(e.Note, cl) && e.Fault != "ok" {
				return true
			}
		case "member-fenced", "member-evicted":
			return true
		}
	}
	return false
}

func vfGrpCheckPlan(run *vfGrpRun, e vfEvent) *vfcore.Failure {
	// "[c0-m1=[t0[0 1]] c1-m2=[t0[2]]]": every partition of every subscribed topic exactly once
	c := run.c
	seen := map[string]int{}
	s := e.Note
	for _, tok := range vfGrpParseClaims(strings.NewReplacer("=[", " ", "]]", "] ", "[[", "[").Replace(strings.Trim(s, "[]"))) {
		// tokens look like "c0-m1 t0/0": strip the member prefix
		f := strings.Fields(tok)
		seen[f[len(f)-1]]++
	}
	subscribed := map[int]bool{}
	for _, m := range c.Members {
		for _, ti := range m.Topics {
			subscribed[ti] = true
		}
	}
	_ = subscribed
	for tp, n := range seen {
		if n > 1 {
			return run.fail("plan-double-owner", "generation %d: %s is assigned %d times in the leader's plan %s", e.N, tp, n, e.Note)
		}
	}
	return nil
}

func TestVF_C07(t *testing.T) {
	vfcore.Main(t, vfcore.Spec{
		ID:  "C07",
		New: func() interface{} { return &vfGrpCase{} },
		Gen: func(t *rapid.T) interface{} { return vfGenGrpCase(t) },
		Run: func(ci interface{}, r *vfcore.Rec) *vfcore.Failure {
			run := vfExecGrp(ci.(*vfGrpCase))
			return vfOracleGrp(run, r)
		},
	})
}
