// Package vfcore is the shared runtime of the /verif harness: it drives a
// property (generator + executor + oracle) with pgregory.net/rapid, collects
// coverage statistics, matches failures against the committed known-findings
// file, and writes replayable failure files.  It is injected into the build as
// github.com/Shopify/sarama/internal/vfcore through a -overlay file and does
// not import sarama.
package vfcore

import (
	"bytes"
	"encoding/binary"
	"encoding/json"
	"fmt"
	"hash/fnv"
	"os"
	"path/filepath"
	"runtime"
	"sort"
	"strconv"
	"strings"
	"sync"
	"testing"

	"pgregory.net/rapid"
)

// Failure is an oracle verdict: the property did not hold for the case.
type Failure struct {
	Symptom string      `json:"symptom"` // stable signature, e.g. "lost-outcome" or "panic:makeslice@(*X).decode"
	Message string      `json:"message"` // human readable detail
	History interface{} `json:"history,omitempty"`
	Regions []string    `json:"regions,omitempty"` // names of known-finding regions the *case* lies in
	// Fatal: the code under test is left in a state in which the process cannot usefully go on (e.g. a goroutine spinning
	// for ever inside it): the failure file is written and the process exits at once, without shrinking.
	Fatal bool `json:"-"`
	// Also: further, independent failures of the same run (other clauses of the oracle). The pipeline reports the first
	// failure - this one or one of these - that no known finding explains, so that an explained symptom cannot hide an
	// unexplained one.
	Also []*Failure `json:"-"`
}

// unexplained returns the first of f and f.Also that no known finding matches (with ""), or f and the finding matching it.
func unexplained(ks []known, f *Failure) (*Failure, string) {
	first := matchKnown(ks, f)
	if first == "" {
		return f, ""
	}
	for _, a := range f.Also {
		if matchKnown(ks, a) == "" {
			return a, ""
		}
	}
	return f, first
}

func Failf(symptom, format string, args ...interface{}) *Failure {
	return &Failure{Symptom: symptom, Message: fmt.Sprintf(format, args...)}
}

// Rec collects per-case coverage facts.
type Rec struct {
	classes    []string
	nontrivial bool
	ntKey      string
	counters   map[string]int64
	discard    bool
	sample     interface{}
}

func (r *Rec) Class(name string)               { r.classes = append(r.classes, name) }
func (r *Rec) Classf(f string, a ...interface{}) { r.classes = append(r.classes, fmt.Sprintf(f, a...)) }

// NonTrivial marks the case non-trivial; key identifies it for distinct counting
// ("" = hash of the case JSON).
func (r *Rec) NonTrivial(key string) { r.nontrivial = true; r.ntKey = key }
func (r *Rec) Count(name string, n int64) {
	if r.counters == nil {
		r.counters = map[string]int64{}
	}
	r.counters[name] += n
}

// Discard marks the case as rejected by the generator (not an evaluation).
func (r *Rec) Discard() { r.discard = true }

// Sample overrides what is stored as a sample for this case (default: the case).
func (r *Rec) Sample(v interface{}) { r.sample = v }

// Spec describes one check.
type Spec struct {
	ID  string
	Gen func(t *rapid.T) interface{}
	// Run executes the case against the code under test and judges it.
	Run func(c interface{}, r *Rec) *Failure
	// New returns a pointer to an empty case value for JSON decoding (replay).
	New func() interface{}
	// Persist writes the case to disk before it is executed, so that a fatal
	// runtime error (which no deferred function can intercept) is attributable.
	Persist bool
	// MaxSamples per shard (default 4).
	MaxSamples int
}

type known struct {
	ID         string `json:"id"`
	Property   string `json:"property"`
	Status     string `json:"status"`
	Text       string `json:"text"`
	Region     string `json:"region"`
	Symptom    string `json:"symptom"`
	Reproducer string `json:"reproducer"`
}

type stats struct {
	mu          sync.Mutex
	Evaluations int64            `json:"evaluations"`
	Discards    int64            `json:"discards"`
	NonTrivial  int64            `json:"nontrivial"`
	Classes     map[string]int64 `json:"classes"`
	Counters    map[string]int64 `json:"counters"`
	Excluded    map[string]int64 `json:"excluded_by_known_finding"`
	Samples     []interface{}    `json:"samples"`
	hashes      map[uint64]struct{}
	Failures    int64 `json:"failures"`
}

func newStats() *stats {
	return &stats{Classes: map[string]int64{}, Counters: map[string]int64{}, Excluded: map[string]int64{}, hashes: map[uint64]struct{}{}}
}

func hash64(b []byte) uint64 {
	h := fnv.New64a()
	h.Write(b)
	return h.Sum64()
}

var (
	envStats   = os.Getenv("VF_STATS")
	envFailDir = os.Getenv("VF_FAILDIR")
	envKnown   = os.Getenv("VF_KNOWN")
	envReplay  = os.Getenv("VF_REPLAY")
	envShard   = os.Getenv("VF_SHARD")
)

// Tier returns "quick" or "thorough".
func Tier() string {
	if os.Getenv("VF_TIER") == "thorough" {
		return "thorough"
	}
	return "quick"
}

// EnvInt reads an integer knob from the environment.
func EnvInt(name string, def int) int {
	if v := os.Getenv(name); v != "" {
		if n, err := strconv.Atoi(v); err == nil {
			return n
		}
	}
	return def
}

func loadKnown(prop string) []known {
	if envKnown == "" {
		return nil
	}
	b, err := os.ReadFile(envKnown)
	if err != nil {
		return nil
	}
	var doc struct {
		Findings []known `json:"findings"`
	}
	if json.Unmarshal(b, &doc) != nil {
		return nil
	}
	var out []known
	for _, k := range doc.Findings {
		if k.Property == prop && k.Status == "open" {
			out = append(out, k)
		}
	}
	return out
}

func matchKnown(ks []known, f *Failure) string {
	for _, k := range ks {
		if !symptomMatch(k.Symptom, f.Symptom) {
			continue
		}
		if k.Region == "" || k.Region == "any" {
			return k.ID
		}
		for _, r := range f.Regions {
			if r == k.Region {
				return k.ID
			}
		}
	}
	return ""
}

func symptomMatch(pat, s string) bool {
	if strings.Contains(pat, "|") {
		for _, alt := range strings.Split(pat, "|") {
			if symptomMatch(alt, s) {
				return true
			}
		}
		return false
	}
	if strings.HasSuffix(pat, "*") {
		return strings.HasPrefix(s, strings.TrimSuffix(pat, "*"))
	}
	return pat == s
}

type failFile struct {
	Property string      `json:"property"`
	Symptom  string      `json:"symptom"`
	Message  string      `json:"message"`
	Regions  []string    `json:"regions,omitempty"`
	Case     interface{} `json:"case"`
	History  interface{} `json:"history,omitempty"`
}

func marshal(v interface{}) []byte {
	b, err := json.Marshal(v)
	if err != nil {
		return []byte(fmt.Sprintf("{\"marshal_error\":%q}", err.Error()))
	}
	return b
}

var failMu sync.Mutex
var smallestFail = -1

func writeFail(id string, c interface{}, f *Failure) string {
	if envFailDir == "" {
		return ""
	}
	failMu.Lock()
	defer failMu.Unlock()
	cb := marshal(c)
	if smallestFail >= 0 && len(cb) >= smallestFail {
		return ""
	}
	smallestFail = len(cb)
	ff := failFile{Property: id, Symptom: f.Symptom, Message: f.Message, Regions: f.Regions, Case: json.RawMessage(cb), History: f.History}
	b, err := json.MarshalIndent(ff, "", " ")
	if err != nil {
		ff.History = fmt.Sprintf("unmarshalable history: %v", err)
		b, _ = json.MarshalIndent(ff, "", " ")
	}
	p := filepath.Join(envFailDir, fmt.Sprintf("fail-%s-shard%s.json", id, envShard))
	_ = os.WriteFile(p, b, 0o644)
	return p
}

func (s *stats) add(id string, c interface{}, r *Rec, maxSamples int) {
	s.mu.Lock()
	defer s.mu.Unlock()
	if r.discard {
		s.Discards++
		return
	}
	s.Evaluations++
	for _, c := range r.classes {
		s.Classes[c]++
	}
	for k, v := range r.counters {
		s.Counters[k] += v
	}
	if r.nontrivial {
		s.NonTrivial++
		var h uint64
		if r.ntKey != "" {
			h = hash64([]byte(r.ntKey))
		} else {
			h = hash64(marshal(c))
		}
		if _, dup := s.hashes[h]; !dup {
			s.hashes[h] = struct{}{}
			if len(s.Samples) < maxSamples {
				if r.sample != nil {
					s.Samples = append(s.Samples, json.RawMessage(marshal(r.sample)))
				} else {
					s.Samples = append(s.Samples, json.RawMessage(marshal(c)))
				}
			}
		}
	}
}

func (s *stats) flush() {
	if envStats == "" {
		return
	}
	s.mu.Lock()
	defer s.mu.Unlock()
	b, _ := json.Marshal(s)
	_ = os.WriteFile(envStats, b, 0o644)
	var buf bytes.Buffer
	hs := make([]uint64, 0, len(s.hashes))
	for h := range s.hashes {
		hs = append(hs, h)
	}
	sort.Slice(hs, func(i, j int) bool { return hs[i] < hs[j] })
	var tmp [8]byte
	for _, h := range hs {
		binary.LittleEndian.PutUint64(tmp[:], h)
		buf.Write(tmp[:])
	}
	_ = os.WriteFile(envStats+".hashes", buf.Bytes(), 0o644)
}

// Global stats registry so that several Main calls in one process (sub-checks of
// one property) accumulate into one file.
var (
	globalStats     = newStats()
	globalStatsOnce sync.Once
)

// runGuarded executes s.Run and turns a panic that escapes it into a failure when the innermost frame outside the runtime
// belongs to the library under test (harness identifiers start with "vf"): the harness calls library code outside its own
// guarded sections too (warming pools, preparing inputs), and a panic there - typically state that an earlier case left
// behind, which the case alone need not reproduce - is still the library's panic. A panic with no library frame is a bug of
// the harness and is passed on (the run then ends without a verdict).
func runGuarded(s Spec, c interface{}, r *Rec) (f *Failure) {
	defer func() {
		if v := recover(); v != nil {
			site := PanicSite(v, "github.com/Shopify/sarama.", "vf", "internal/vfcore", "internal/vfref")
			if strings.HasSuffix(site, "@?") {
				panic(v)
			}
			f = Failf(site, "the library panicked outside the call under judgement (possibly because of state an earlier case left behind; the case alone may not reproduce it): %v", v)
			f.History = Stacks()
		}
	}()
	return s.Run(c, r)
}

// Main runs the check described by s under testing.T.
func Main(t *testing.T, s Spec) {
	if s.MaxSamples == 0 {
		s.MaxSamples = 4
	}
	st := globalStats
	t.Cleanup(st.flush)
	ks := loadKnown(s.ID)

	if envReplay != "" {
		replay(t, s, st, ks)
		return
	}

	rapid.Check(t, func(rt *rapid.T) {
		c := s.Gen(rt)
		if s.Persist && envFailDir != "" {
			_ = os.WriteFile(filepath.Join(envFailDir, "current-shard"+envShard+".json"), marshal(c), 0o644)
		}
		r := &Rec{}
		f := runGuarded(s, c, r)
		st.add(s.ID, c, r, s.MaxSamples)
		if f == nil {
			return
		}
		var id string
		if f, id = unexplained(ks, f); id != "" {
			st.mu.Lock()
			st.Excluded[id]++
			st.mu.Unlock()
			return
		}
		if os.Getenv("VF_SURVEY") != "" && os.Getenv("VF_FAIL_ON") != f.Symptom+"|"+strings.Join(f.Regions, ",") {
			// development aid: count failures per symptom and keep searching (never used by registered commands)
			st.mu.Lock()
			st.Counters["survey:"+f.Symptom+" regions="+strings.Join(f.Regions, ",")]++
			st.mu.Unlock()
			if os.Getenv("VF_SURVEY") == "2" {
				fmt.Printf("SURVEY %s: %s\n", f.Symptom, f.Message)
			}
			return
		}
		st.mu.Lock()
		st.Failures++
		st.mu.Unlock()
		writeFail(s.ID, c, f)
		if f.Fatal {
			st.flush()
			fmt.Printf("VF-FAIL property=%s symptom=%s: %s\n", s.ID, f.Symptom, f.Message)
			os.Exit(1)
		}
		rt.Fatalf("VF-FAIL property=%s symptom=%s: %s", s.ID, f.Symptom, f.Message)
	})
}

// Direct returns a function that pushes one explicitly constructed case through the
// same pipeline as Main (statistics, known findings, failure file). It is used by
// exhaustive enumerations, which do not draw from rapid.
func Direct(t *testing.T, s Spec) func(c interface{}) {
	if s.MaxSamples == 0 {
		s.MaxSamples = 4
	}
	st := globalStats
	t.Cleanup(st.flush)
	ks := loadKnown(s.ID)
	return func(c interface{}) {
		r := &Rec{}
		f := runGuarded(s, c, r)
		st.add(s.ID, c, r, s.MaxSamples)
		if f == nil {
			return
		}
		var id string
		if f, id = unexplained(ks, f); id != "" {
			st.mu.Lock()
			st.Excluded[id]++
			st.mu.Unlock()
			return
		}
		st.mu.Lock()
		st.Failures++
		st.mu.Unlock()
		writeFail(s.ID, c, f)
		t.Fatalf("VF-FAIL property=%s symptom=%s: %s", s.ID, f.Symptom, f.Message)
	}
}

// AddCounter adds to a named run-level counter.
func AddCounter(name string, n int64) {
	globalStats.mu.Lock()
	globalStats.Counters[name] += n
	globalStats.mu.Unlock()
}

// IsReplay reports whether the process was started to replay a saved case.
func IsReplay() bool { return envReplay != "" }

// replay executes the case stored in a failure file (or a bare case file) and
// reports the verdict on stdout as a line "VF-REPLAY result=<pass|fail> runs=<n> failed=<k> symptom=<s>".
func replay(t *testing.T, s Spec, st *stats, ks []known) {
	b, err := os.ReadFile(envReplay)
	if err != nil {
		t.Fatalf("replay: %v", err)
	}
	var ff struct {
		Case json.RawMessage `json:"case"`
	}
	raw := b
	if json.Unmarshal(b, &ff) == nil && len(ff.Case) > 0 {
		raw = ff.Case
	}
	n := EnvInt("VF_REPLAY_N", 1)
	failed := 0
	var last *Failure
	for i := 0; i < n; i++ {
		c := s.New()
		if err := json.Unmarshal(raw, c); err != nil {
			t.Fatalf("replay: cannot decode case: %v", err)
		}
		r := &Rec{}
		f := runGuarded(s, derefCase(c), r)
		st.add(s.ID, c, r, s.MaxSamples)
		if f != nil {
			failed++
			f, _ = unexplained(ks, f)
			if last == nil || matchKnown(ks, last) != "" {
				last = f // keep the first failure that no known finding explains; otherwise the latest
			}
			if f.Fatal {
				break
			}
		}
	}
	sym, msg := "", ""
	if last != nil {
		sym, msg = last.Symptom, last.Message
	}
	res := "pass"
	if failed > 0 {
		res = "fail"
	}
	kid, regions := "", ""
	if last != nil {
		kid = matchKnown(ks, last)
		regions = strings.Join(last.Regions, ",")
	}
	fmt.Printf("VF-REPLAY property=%s result=%s runs=%d failed=%d symptom=%s message=%q\n", s.ID, res, n, failed, sym, msg)
	fmt.Printf("VF-REPLAY-KNOWN known=%q regions=%q\n", kid, regions)
}

func derefCase(c interface{}) interface{} {
	if d, ok := c.(interface{ Deref() interface{} }); ok {
		return d.Deref()
	}
	return c
}

// PanicSite returns "<class of panic value>@<innermost function matching pkgPrefix
// on the panicking stack>". Call it from a deferred function after recover().
func PanicSite(v interface{}, pkgPrefix string, skipPrefixes ...string) string {
	class := panicClass(v)
	pcs := make([]uintptr, 64)
	n := runtime.Callers(2, pcs)
	frames := runtime.CallersFrames(pcs[:n])
	seenPanic := false
	for {
		fr, more := frames.Next()
		fn := fr.Function
		if fn == "runtime.gopanic" || strings.HasPrefix(fn, "runtime.panic") || fn == "runtime.goPanicIndex" || strings.HasPrefix(fn, "runtime.goPanic") {
			seenPanic = true
		} else if seenPanic && strings.HasPrefix(fn, pkgPrefix) {
			short := strings.TrimPrefix(fn, pkgPrefix)
			skip := false
			for _, sp := range skipPrefixes {
				if strings.HasPrefix(short, sp) {
					skip = true
				}
			}
			if !skip {
				return class + "@" + short
			}
		}
		if !more {
			break
		}
	}
	return class + "@?"
}

func panicClass(v interface{}) string {
	var s string
	switch x := v.(type) {
	case runtime.Error:
		s = x.Error()
	case error:
		s = x.Error()
	default:
		s = fmt.Sprint(v)
	}
	switch {
	case strings.Contains(s, "makeslice"):
		return "panic:makeslice"
	case strings.Contains(s, "slice bounds out of range"):
		return "panic:slicebounds"
	case strings.Contains(s, "index out of range"):
		return "panic:index"
	case strings.Contains(s, "nil pointer"):
		return "panic:nilptr"
	case strings.Contains(s, "nil map"):
		return "panic:nilmap"
	case strings.Contains(s, "closed channel"):
		return "panic:closedchan"
	case strings.Contains(s, "divide by zero"):
		return "panic:divzero"
	case strings.Contains(s, "negative WaitGroup"):
		return "panic:waitgroup"
	case strings.Contains(s, "interface conversion"):
		return "panic:ifaceconv"
	}
	if len(s) > 40 {
		s = s[:40]
	}
	return "panic:" + strings.ReplaceAll(s, " ", "_")
}

// Stacks returns a dump of all goroutines (for hang diagnostics).
func Stacks() string {
	buf := make([]byte, 1<<20)
	n := runtime.Stack(buf, true)
	return string(buf[:n])
}
