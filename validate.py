#!/usr/bin/env python3
"""Validates MANIFEST.json and every evidence file against the given schemas (uses the tooling venv's jsonschema)."""
import glob, json, sys
import jsonschema
ok = True
ms = json.load(open('/root/.vp/MANIFEST.schema.json')); es = json.load(open('/root/.vp/EVIDENCE.schema.json'))
try:
    jsonschema.validate(json.load(open('MANIFEST.json')), ms)
except Exception as e:
    ok = False; print('MANIFEST invalid:', str(e)[:500])
m = json.load(open('MANIFEST.json'))
for c in m['checks']:
    try:
        jsonschema.validate(json.load(open(c['evidence_file'])), es)
    except Exception as e:
        ok = False; print(c['evidence_file'], 'invalid:', str(e)[:300])
print('valid' if ok else 'INVALID'); sys.exit(0 if ok else 1)
