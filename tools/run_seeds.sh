#!/bin/bash
# run_seeds.sh <tier> <id> <seeds...>: one check at several seeds (development aid)
tier=$1; id=$2; shift; shift
mkdir -p /tmp/tierlogs
for s in "$@"; do
  t0=$(date +%s)
  VERIF_SEED=$s python3 check.py $id --tier $tier > /tmp/tierlogs/${id}_${tier}_$s.log 2>&1
  rc=$?
  echo "$id tier=$tier seed=$s rc=$rc wall=$(( $(date +%s) - t0 ))s $(grep -m1 '^property=' /tmp/tierlogs/${id}_${tier}_$s.log | cut -c1-160) $(grep -m1 'violation:\|INFRA' /tmp/tierlogs/${id}_${tier}_$s.log | cut -c1-200)"
done
echo "seed run done"
