#!/bin/sh
# Regenerates harness/vfref from the pinned commit of /repo (non-test sources, mock* excluded, package renamed).
# The export shim zz_shim.go is hand-written and kept.
set -e
PIN=${1:-51aed78}
cd /repo
for f in $(git ls-tree --name-only $PIN | grep '\.go$' | grep -v _test.go | grep -v '^mock'); do
  git show $PIN:$f | sed -e '0,/^package sarama$/s//package vfref/' > /verif/harness/vfref/$f
done
