#!/bin/bash
# verify_seeded.sh <names...>: independent confirmation of seeded changes in a scratch worktree of /repo's HEAD:
#   demo fails with the change, demo passes without it, the existing suite passes with the change (demo set aside).
export GOFLAGS=-mod=mod GOPROXY=off GOSUMDB=off GOTOOLCHAIN=local
wt=/tmp/verify_seeded_wt
git -C /repo worktree remove --force $wt 2>/dev/null
git -C /repo worktree add --detach $wt HEAD >/dev/null 2>&1 || exit 2
for n in "$@"; do
  d=/verif/seeded/$n
  cd $wt && git checkout -q -- . && git clean -fdq
  demo=$(ls $d/zz_demo_*_test.go | head -1); base=$(basename $demo)
  pkg=.; dest=$wt/$base
  if grep -q '^package mocks' $demo; then pkg=./mocks/; dest=$wt/mocks/$base; fi
  tname=$(grep -o 'func TestDemo[A-Za-z0-9_]*' $demo | head -1 | sed 's/func //')
  cp $demo $dest
  go test -vet=off -count=3 -run "^$tname\$" $pkg >/tmp/vs_without.log 2>&1; without=$?
  git apply $d/patch.diff || { echo "$n: patch does not apply"; continue; }
  go test -vet=off -count=3 -run "^$tname\$" $pkg >/tmp/vs_with.log 2>&1; with=$?
  rm -f $dest
  go test -vet=off -count=1 -timeout 25m . ./mocks/ ./examples/... >/tmp/vs_suite.log 2>&1; suite=$?
  echo "$n: demo-without-change rc=$without (want 0)  demo-with-change rc=$with (want 1)  suite-with-change rc=$suite (want 0)"
done
cd /; git -C /repo worktree remove --force $wt
