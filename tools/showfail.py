#!/usr/bin/env python3
"""Pretty-prints a producer-engine failure file."""
import json, sys
j=json.load(open(sys.argv[1]))
c=j['case']
print('SYMPTOM', j['symptom'], '|', j['message'][:300])
print('regions', j.get('regions'))
print('conf', json.dumps(c.get('conf')))
print('topics',c.get('topics'),'brokers',c.get('brokers'),'nmsgs',len(c.get('msgs',[])), 'close', c.get('closeMode'), 'sync', c.get('sync'))
print('msgs', [(m.get('topic',0),m.get('part',0)) for m in c.get('msgs',[])])
print('faults',json.dumps(c.get('faults')))
print('script',json.dumps(c.get('script')))
print('delays', c.get('delays'))
h=j.get('history') or {}
print('submitted',h.get('submitted'))
print('outcomes',[(o['idx'],'ok' if o['ok'] else o.get('err','')[:40],o['part'],o['offset']) for o in (h.get("outcomes") or [])])
print('logs', h.get('logs'))
n=int(sys.argv[2]) if len(sys.argv)>2 else 60
for e in h.get('events',[])[:n]:
    if e['kind'] in ('accept','conn-closed'): continue
    print('  ', e['seq'], e['kind'], e.get('broker',''), e.get('key',''), e.get('fault',''), 'code=%s'%e.get('code',0), 'ids=%s'%e.get('ids'), 'n=%s'%e.get('n'), e.get('note','')[:80], e.get('vals',''))
if h.get('hang'): print('HANG', h['hang'])
if h.get('syncReturns'): print('sync', h['syncReturns'])
