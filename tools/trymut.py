#!/usr/bin/env python3
"""trymut.py <worktree> <file> <old> <new> <check-id> [scale]: apply a one-off textual mutation in a scratch worktree,
run the quick tier of a check against it (VF_REPO), print the verdict, revert."""
import os, subprocess, sys
wt, f, old, new, cid = sys.argv[1:6]
scale = sys.argv[6] if len(sys.argv) > 6 else "1"
p = os.path.join(wt, f)
s = open(p).read()
if s.count(old) != 1:
    print("pattern count", s.count(old)); sys.exit(2)
open(p, "w").write(s.replace(old, new))
try:
    env = dict(os.environ, VF_REPO=wt)
    r = subprocess.run(["python3", "check.py", cid, "--tier", "quick", "--scale", scale], cwd="/verif", env=env, stdout=subprocess.PIPE, stderr=subprocess.STDOUT, text=True)
    lines = [l for l in r.stdout.splitlines() if "violation:" in l or "INFRA" in l]
    print("exit", r.returncode, "|", (lines[0][:200] if lines else r.stdout.strip().splitlines()[-1][:200]))
finally:
    open(p, "w").write(s)
