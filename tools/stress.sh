#!/bin/bash
# stress.sh <seeds> <ids...>: runs the quick tier of the given checks at the given seeds, 4 at a time, and reports every non-zero exit.
# Evidence/replay files are shared, so this is for smoke-testing stability only.
seeds=$1; shift
for s in $seeds; do
  for id in "$@"; do
    ( VF_DEV_EVIDENCE=1 VERIF_SEED=$s python3 check.py $id --tier quick > /tmp/stress_${id}_$s.log 2>&1; rc=$?; if [ $rc -ne 0 ]; then echo "ALARM $id seed=$s rc=$rc: $(grep -m1 'violation:\|INFRA' /tmp/stress_${id}_$s.log | cut -c1-220)"; fi ) &
    while [ $(jobs -r | wc -l) -ge 4 ]; do sleep 0.5; done
  done
done
wait
echo "stress done"
