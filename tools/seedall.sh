#!/bin/bash
# seedall.sh [names...]: for every seeded change (default: all of seeded/*) apply it to a scratch worktree of /repo's HEAD, run the quick tier of
# the property it was written for against that worktree, and print the verdict. Exit status 0 iff every change is caught (exit 1 of its check).
# The scratch worktree lives under /tmp and is removed at the end; /repo itself is not touched.
cd /verif
wt=/tmp/seedall_wt
git -C /repo worktree remove --force $wt 2>/dev/null
git -C /repo worktree add --detach $wt HEAD >/dev/null 2>&1 || { echo "cannot create worktree"; exit 2; }
names="$@"; [ -z "$names" ] && names=$(ls seeded)
missed=0
for n in $names; do
  id=${n%%-*}
  ( cd $wt && git checkout -q -- . && git clean -fdq && git apply /verif/seeded/$n/patch.diff ) || { echo "$n: patch does not apply"; missed=1; continue; }
  extra=$(python3 -c "import json;print(' '.join(json.load(open('/verif/seeded/$n/meta.json')).get('also_checks',[])))" 2>/dev/null)
  verdict=""
  for c in $id $extra; do
    out=$(VF_REPO=$wt VERIF_SEED=${VERIF_SEED:-1} python3 check.py $c --tier quick 2>&1); rc=$?
    verdict="$verdict $c:rc=$rc"
    if [ $rc -eq 1 ]; then verdict="$verdict($(echo "$out" | grep -m1 'violation:' | sed 's/.*symptom=\([^ ]*\).*/\1/' | cut -c1-60))"; break; fi
  done
  case "$verdict" in *rc=1*) echo "$n: caught $verdict";; *) echo "$n: MISSED $verdict"; missed=1;; esac
done
git -C /repo worktree remove --force $wt
rm -rf /verif/build/alt_tmp_seedall_wt
exit $missed
