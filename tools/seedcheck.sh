#!/bin/bash
# seedcheck.sh <ID> <check ids...>: stores the seeded change of /tmp/mut_<ID> under seeded/<ID>/ and runs the given checks'
# quick tier against that worktree (VF_REPO), printing each verdict. The demo test file is moved aside first so that only
# the library change is judged.
id=$1; shift
wt=/tmp/mut_$id
mkdir -p seeded/$id
cp $wt/patch.diff $wt/meta.json seeded/$id/ 2>/dev/null
cp $wt/zz_demo_*_test.go $wt/mocks/zz_demo_*_test.go seeded/$id/ 2>/dev/null
# make sure the worktree holds exactly HEAD + patch
( cd $wt && git checkout -q -- . && rm -f zz_demo_*_test.go mocks/zz_demo_*_test.go && git apply seeded_dummy 2>/dev/null; git apply /verif/seeded/$id/patch.diff ) || { echo "patch does not apply"; exit 2; }
( cd $wt && git diff --stat | tail -1 )
for c in "$@"; do
  out=$(VF_REPO=$wt python3 check.py $c --tier quick 2>&1)
  rc=$?
  echo "  $c exit=$rc $(echo "$out" | grep -m1 'violation:' | cut -c1-220)"
done
