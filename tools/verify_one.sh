#!/bin/bash
# verify_one.sh <name>: like verify_seeded.sh for a single seeded change, in its own scratch worktree (/tmp/vs_<name>), so that
# several can run side by side. Prints one verdict line and removes the worktree.
export GOFLAGS=-mod=mod GOPROXY=off GOSUMDB=off GOTOOLCHAIN=local
n=$1; d=/verif/seeded/$n; wt=/tmp/vs_$n
git -C /repo worktree remove --force $wt 2>/dev/null
git -C /repo worktree add --detach $wt HEAD >/dev/null 2>&1 || exit 2
cd $wt
demo=$(ls $d/zz_demo_*_test.go | head -1); base=$(basename $demo)
pkg=.; dest=$wt/$base
if grep -q '^package mocks' $demo; then pkg=./mocks/; dest=$wt/mocks/$base; fi
tname=$(grep -o 'func TestDemo[A-Za-z0-9_]*' $demo | head -1 | sed 's/func //')
cp $demo $dest
go test -vet=off -count=3 -run "^$tname\$" $pkg >/tmp/vs_${n}_without.log 2>&1; without=$?
git apply $d/patch.diff || { echo "$n: patch does not apply"; cd /; git -C /repo worktree remove --force $wt; exit 2; }
go test -vet=off -count=3 -run "^$tname\$" $pkg >/tmp/vs_${n}_with.log 2>&1; with=$?
rm -f $dest
go test -vet=off -count=1 -timeout 25m . ./mocks/ ./examples/... >/tmp/vs_${n}_suite.log 2>&1; suite=$?
echo "$n: demo-without-change rc=$without (want 0)  demo-with-change rc=$with (want 1)  suite-with-change rc=$suite (want 0)"
cd /; git -C /repo worktree remove --force $wt
