#!/bin/bash
# seedcheck2.sh <worktree> <name> <check ids...>: like seedcheck.sh for an arbitrary worktree; stores under seeded/<name>/
wt=$1; name=$2; shift; shift
mkdir -p seeded/$name
cp $wt/patch.diff $wt/meta.json seeded/$name/ 2>/dev/null
cp $wt/zz_demo_*_test.go $wt/mocks/zz_demo_*_test.go seeded/$name/ 2>/dev/null
( cd $wt && git checkout -q -- . && rm -f zz_demo_*_test.go mocks/zz_demo_*_test.go; git apply /verif/seeded/$name/patch.diff ) || { echo "patch does not apply"; exit 2; }
( cd $wt && git diff --stat | tail -1 )
for c in "$@"; do
  out=$(VF_REPO=$wt python3 check.py $c --tier quick 2>&1)
  rc=$?
  echo "  $c exit=$rc $(echo "$out" | grep -m1 'violation:' | cut -c1-220)"
done
