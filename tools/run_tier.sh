#!/bin/bash
# run_tier.sh <tier> <seed> <ids...>: runs the given checks one after the other and prints one line per check (development aid)
tier=$1; seed=$2; shift; shift
mkdir -p /tmp/tierlogs
for id in "$@"; do
  t0=$(date +%s)
  VERIF_SEED=$seed python3 check.py $id --tier $tier > /tmp/tierlogs/${id}_${tier}_$seed.log 2>&1
  rc=$?
  echo "$id tier=$tier seed=$seed rc=$rc wall=$(( $(date +%s) - t0 ))s $(grep -m1 '^property=' /tmp/tierlogs/${id}_${tier}_$seed.log | cut -c1-160) $(grep -m1 'violation:\|INFRA' /tmp/tierlogs/${id}_${tier}_$seed.log | cut -c1-200)"
done
echo "tier run done"
