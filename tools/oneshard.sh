#!/bin/bash
# development aid: build the harness test binary once and run one test directly (no sharding, no driver)
#   tools/oneshard.sh <dir> <TestName> <checks> <seed> [timeout-seconds]
# leaves <dir>/t.test, <dir>/fail/, <dir>/stats.json, <dir>/out.txt
set -u
export GOFLAGS=-mod=mod GOPROXY=off GOSUMDB=off GOTOOLCHAIN=local
D=$1; T=$2; N=$3; S=$4; TO=${5:-600}
mkdir -p "$D/fail"
cd /verif
if [ -z "${NOBUILD:-}" ]; then
  python3 -c "
import vfbuild,sys
rc,out=vfbuild.build_test_binary('.', '$D/t.test')
print(out)
sys.exit(rc)" || exit 2
fi
cd "$D"
rm -f fail/*
VF_FAILDIR=$D/fail VF_STATS=$D/stats.json VF_KNOWN=/verif/known_findings.json VF_SHARD=0_0 VF_TIER=${VF_TIER:-thorough} \
  timeout -s QUIT "$TO" ./t.test -test.run "^$T\$" -test.v -test.timeout 0 -rapid.checks="$N" -rapid.seed="$S" > out.txt 2>&1
echo "exit $?"
tail -5 out.txt | cut -c1-400
ls fail
