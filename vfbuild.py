"""Build mechanics shared by setup.py and check.py.

Nothing is ever written into /repo: harness sources are injected with -overlay,
the rapid requirement with -modfile.  See DESIGN.md section 2.1.
"""
import json
import os
import shutil
import subprocess
import sys

VERIF = os.path.dirname(os.path.abspath(__file__))
REPO = os.environ.get("VF_REPO", "/repo")
BUILD = os.path.join(VERIF, "build", "wip") if (REPO == "/repo" and os.environ.get("VF_WIP")) else os.path.join(VERIF, "build") if REPO == "/repo" else os.path.join(VERIF, "build", "alt_" + REPO.strip("/").replace("/", "_"))

GOENV = {
    "GOFLAGS": "-mod=mod",
    "GOPROXY": "off",
    "GOSUMDB": "off",
    "GOTOOLCHAIN": "local",
    "GONOSUMDB": "*",
    "GONOSUMCHECK": "1",
}


def goenv():
    e = dict(os.environ)
    e.update(GOENV)
    e.pop("GOWORK", None)
    return e


def prepare():
    """(Re)generate build/go.mod, build/go.sum, build/overlay.json from what is on disk."""
    os.makedirs(BUILD, exist_ok=True)
    gomod = open(os.path.join(REPO, "go.mod")).read()
    if "pgregory.net/rapid" not in gomod:
        gomod = gomod.rstrip("\n") + "\n\nrequire pgregory.net/rapid v1.3.0\n"
    _write_if_changed(os.path.join(BUILD, "go.mod"), gomod)
    # go.sum: keep sums go added earlier (rapid), refresh the rest from /repo
    sums = set()
    for p in (os.path.join(REPO, "go.sum"), os.path.join(BUILD, "go.sum")):
        if os.path.exists(p):
            sums.update(l for l in open(p).read().splitlines() if l.strip())
    _write_if_changed(os.path.join(BUILD, "go.sum"), "\n".join(sorted(sums)) + "\n")

    replace = {}

    def inject(srcdir, dstdir, rename):
        if not os.path.isdir(srcdir):
            return
        for f in sorted(os.listdir(srcdir)):
            if not f.endswith(".go"):
                continue
            replace[os.path.join(dstdir, rename(f))] = os.path.join(srcdir, f)

    h = os.path.join(VERIF, "harness")
    inject(os.path.join(h, "sarama"), REPO, lambda f: "zz_vf_" + f)
    if os.environ.get("VF_WIP"):
        # files under development live in harness/wip so that a half-written file never breaks other builds;
        # a wip file with the same name as a harness/sarama file replaces it in this build
        inject(os.path.join(h, "wip"), REPO, lambda f: "zz_vf_" + f)
    inject(os.path.join(h, "mocks"), os.path.join(REPO, "mocks"), lambda f: "zz_vf_" + f)
    inject(os.path.join(h, "vfcore"), os.path.join(REPO, "internal", "vfcore"), lambda f: f)
    inject(os.path.join(h, "vfref"), os.path.join(REPO, "internal", "vfref"), lambda f: f)
    _write_if_changed(os.path.join(BUILD, "overlay.json"), json.dumps({"Replace": replace}, indent=1, sort_keys=True))


def _write_if_changed(path, content):
    if os.path.exists(path) and open(path).read() == content:
        return
    with open(path, "w") as f:
        f.write(content)


def build_test_binary(pkg, out, fuzz=None, race=False, tags="verif"):
    """go test -c for package pkg ('.' or './mocks') of /repo's working tree."""
    prepare()
    cmd = ["go", "test", "-tags", tags, "-vet=off",
           "-modfile=" + os.path.join(BUILD, "go.mod"),
           "-overlay=" + os.path.join(BUILD, "overlay.json"),
           "-c", "-o", out]
    if fuzz:
        cmd += ["-fuzz", fuzz]
    if race:
        cmd += ["-race"]
    cmd.append(pkg)
    r = subprocess.run(cmd, cwd=REPO, env=goenv(), stdout=subprocess.PIPE, stderr=subprocess.STDOUT, text=True)
    return r.returncode, r.stdout


if __name__ == "__main__":
    prepare()
    print("prepared", BUILD)
