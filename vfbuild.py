"""Build mechanics shared by setup.py and check.py.

Nothing is ever written into /repo: harness sources are injected with -overlay,
the rapid requirement with -modfile.  See DESIGN.md section 2.1.
"""
import json
import os
import re
import shutil
import subprocess
import sys

VERIF = os.path.dirname(os.path.abspath(__file__))
REPO = os.environ.get("VF_REPO", "/repo")
BUILD = os.path.join(VERIF, "build", "wip") if (REPO == "/repo" and os.environ.get("VF_WIP")) else os.path.join(VERIF, "build") if REPO == "/repo" else os.path.join(VERIF, "build", "alt_" + REPO.strip("/").replace("/", "_"))

GOENV = {
    "GOFLAGS": "-mod=mod",
    "GOPROXY": "off",
    "GOSUMDB": "off",
    "GOTOOLCHAIN": "local",
    "GONOSUMDB": "*",
    "GONOSUMCHECK": "1",
}


def goenv():
    e = dict(os.environ)
    e.update(GOENV)
    e.pop("GOWORK", None)
    return e


def prepare():
    """(Re)generate build/go.mod, build/go.sum, build/overlay.json from what is on disk."""
    os.makedirs(BUILD, exist_ok=True)
    gomod = open(os.path.join(REPO, "go.mod")).read()
    if "pgregory.net/rapid" not in gomod:
        gomod = gomod.rstrip("\n") + "\n\nrequire pgregory.net/rapid v1.3.0\n"
    # rapid v1.3.0 declares go 1.23, which forces the go line of this alternative go.mod up to 1.23 - and with it the
    # language version and the runtime defaults sarama would be compiled with (per-iteration loop variables, synchronous
    # timer channels, ...). /repo's own go.mod says go 1.13, and that is how its users and its suite build it. Two measures
    # keep the harness build on the same semantics: the runtime defaults are pinned here (everything older than 1.21 means
    # "as of Go 1.20"), and every source file of /repo is compiled at language version go1.21 - the lowest a file can be
    # downgraded to, and older than the loop-variable change - through the overlay (see _lang_copies).
    if "godebug default=" not in gomod:
        gomod = gomod.rstrip("\n") + "\n\ngodebug default=go1.20\n"
    # go normalises the file on its first build (it moves the added requirement); rewriting it from the template before
    # every build would make every build rewrite it again - and two concurrent builds then trip over each other
    # ("existing contents have changed since last read"). So the file is regenerated only when the template changes.
    tmpl = os.path.join(BUILD, "go.mod.tmpl")
    if not (os.path.exists(tmpl) and open(tmpl).read() == gomod and os.path.exists(os.path.join(BUILD, "go.mod"))):
        _write_if_changed(os.path.join(BUILD, "go.mod"), gomod)
        _write_if_changed(tmpl, gomod)
    # go.sum: keep sums go added earlier (rapid), refresh the rest from /repo
    sums = set()
    for p in (os.path.join(REPO, "go.sum"), os.path.join(BUILD, "go.sum")):
        if os.path.exists(p):
            sums.update(l for l in open(p).read().splitlines() if l.strip())
    _write_if_changed(os.path.join(BUILD, "go.sum"), "\n".join(sorted(sums)) + "\n")

    replace = {}

    def inject(srcdir, dstdir, rename):
        if not os.path.isdir(srcdir):
            return
        for f in sorted(os.listdir(srcdir)):
            if not f.endswith(".go"):
                continue
            replace[os.path.join(dstdir, rename(f))] = os.path.join(srcdir, f)

    h = os.path.join(VERIF, "harness")
    inject(os.path.join(h, "sarama"), REPO, lambda f: "zz_vf_" + f)
    if os.environ.get("VF_WIP"):
        # files under development live in harness/wip so that a half-written file never breaks other builds;
        # a wip file with the same name as a harness/sarama file replaces it in this build
        inject(os.path.join(h, "wip"), REPO, lambda f: "zz_vf_" + f)
    inject(os.path.join(h, "mocks"), os.path.join(REPO, "mocks"), lambda f: "zz_vf_" + f)
    inject(os.path.join(h, "vfcore"), os.path.join(REPO, "internal", "vfcore"), lambda f: f)
    inject(os.path.join(h, "vfref"), os.path.join(REPO, "internal", "vfref"), lambda f: f)
    replace.update(_lang_copies())
    _write_if_changed(os.path.join(BUILD, "overlay.json"), json.dumps({"Replace": replace}, indent=1, sort_keys=True))


LANG = "go1.21"


def _lang_copies():
    """Copies of /repo's own .go files (root package and mocks) with a '//go:build go1.21' constraint, which sets the
    language version of the file; returns overlay entries original -> copy. The copies are refreshed from the working tree
    on every build."""
    out = {}
    for sub in ("", "mocks"):
        src = os.path.join(REPO, sub)
        dst = os.path.join(BUILD, "lang", sub)
        os.makedirs(dst, exist_ok=True)
        keep = set()
        for f in sorted(os.listdir(src)):
            if not f.endswith(".go"):
                continue
            text = open(os.path.join(src, f), encoding="utf-8", errors="surrogateescape").read()
            lines = text.split("\n")
            done = False
            legacy = []  # indices and expressions of '// +build' lines in the header
            for i, l in enumerate(lines):
                st = l.strip()
                if st.startswith("//go:build "):
                    lines[i] = "//go:build (" + st[len("//go:build "):] + ") && " + LANG
                    done = True
                m = re.match(r"^//\s*\+build\s+(.*)$", st)
                if m:
                    # a line is an OR of its space separated terms, a term an AND of its comma separated parts
                    legacy.append((i, "(" + " || ".join("(" + " && ".join(t.split(",")) + ")" for t in m.group(1).split()) + ")"))
                if st.startswith("package "):
                    break
            if not done and legacy:
                lines[legacy[0][0]] = "//go:build " + " && ".join(e for _, e in legacy) + " && " + LANG
                legacy = legacy[1:]
                done = True
            # remaining legacy lines would disagree with the //go:build line now; the toolchain only reads the latter
            for i, _ in legacy:
                lines[i] = "//"
            if not done:
                lines = ["//go:build " + LANG, ""] + lines
            cp = os.path.join(dst, f)
            keep.add(f)
            new = "\n".join(lines)
            if not (os.path.exists(cp) and open(cp, encoding="utf-8", errors="surrogateescape").read() == new):
                with open(cp, "w", encoding="utf-8", errors="surrogateescape") as fh:
                    fh.write(new)
            out[os.path.join(src, f)] = cp
        for f in os.listdir(dst):
            if f.endswith(".go") and f not in keep:
                os.remove(os.path.join(dst, f))
    return out


def _write_if_changed(path, content):
    if os.path.exists(path) and open(path).read() == content:
        return
    with open(path, "w") as f:
        f.write(content)


def build_test_binary(pkg, out, fuzz=None, race=False, tags="verif"):
    """go test -c for package pkg ('.' or './mocks') of /repo's working tree."""
    import fcntl
    os.makedirs(BUILD, exist_ok=True)
    # one build at a time per build directory: checks may be started concurrently, and prepare() plus go's own updates of
    # go.mod / go.sum are not safe against each other
    with open(os.path.join(BUILD, ".lock"), "w") as lk:
        fcntl.flock(lk, fcntl.LOCK_EX)
        return _build_locked(pkg, out, fuzz, race, tags)


def _build_locked(pkg, out, fuzz, race, tags):
    prepare()
    cmd = ["go", "test", "-tags", tags, "-vet=off",
           "-modfile=" + os.path.join(BUILD, "go.mod"),
           "-overlay=" + os.path.join(BUILD, "overlay.json"),
           "-c", "-o", out]
    if fuzz:
        cmd += ["-fuzz", fuzz]
    if race:
        cmd += ["-race"]
    cmd.append(pkg)
    r = subprocess.run(cmd, cwd=REPO, env=goenv(), stdout=subprocess.PIPE, stderr=subprocess.STDOUT, text=True)
    return r.returncode, r.stdout


if __name__ == "__main__":
    prepare()
    print("prepared", BUILD)
